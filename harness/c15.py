"""C15 - BlockingPortal: every cross-thread call is run once, answered and joined.

1. TLC model-checks spec/MC_C15.tla (= AioPortal, the implementation-shaped model of
   BlockingPortal, with the property-level observer P_Portal as ghost state): PropertyHolds in every
   reachable state of every interleaving of caller threads, the loop, Future.cancel(), stop() and the
   exit of start_blocking_portal(), within the configured bounds; plus implementation invariants.
2. The same model restricted to environments that act at quiescent points (QStep) generates the
   scenarios: maximal histories of environment choices (issue / cancel / release / exit); one small
   configuration exhaustively (all scenarios around a start_task() callable that waits before
   started() and around stop / stop(cancel_remaining) - always replayed), a larger one sampled.
3. Every scenario is performed on a real portal (asyncio loop and uvloop) by harness.c15_run
   (quiescent-step replay) and the recorded trace is validated by TLC against P_Portal (T_Portal).
4. Witness runs: with the two races of the code switched on, TLC must find the known model-level
   findings C15-A (InvalidStateError out of _call_func) and C15-B (inert cancel callback); they are
   recorded as evidence, never as a verdict (the replay cannot steer threads into those windows).
"""

from __future__ import annotations

import json
import random
import time
from pathlib import Path

from . import core, tlc
from . import replay as rp

PROP = "C15"
ALL = '{"sync", "ret", "fail", "block", "st", "stw", "stfail", "stop0", "stop1", "stop01"}'
# the kinds around a start_task() whose callable waits before started() and around repeated stops
STW = '{"block", "stw", "stop1", "stop01"}'
TLC_WORKERS = 6          # shared machine
INVS = ["PropertyHolds", "TypeOK", "GroupJoined", "NoOrphanFuture", "NoHungThread"]

ASSUME = [
    "quiescent-step binding: the environment of the replay acts only when the portal is quiescent, so "
    "interleavings inside one step are whatever the machine does; the model (TLC) covers all of them",
    "the model is one FIFO of loop handles and one action per critical section of a caller thread, not "
    "the handle-exact asyncio kernel of spec/Aio.tla; CPython concurrent.futures.Future is environment",
    "model runs with FutRace / ChkRace = FALSE assume Future.cancel() does not land between "
    "future.cancelled() and future.set_result() in _call_func and stop() does not land between "
    "_check_running() and run_sync(); the races themselves are findings C15-A / C15-B "
    "(notes/finding_C15.md), shown by the witness runs",
    "callables are the ten kinds of spec/P_Portal.tla; at most 4 calls, 3 caller threads per scenario",
    "stop(cancel_remaining=True) after a plain stop() is exercised by one callable doing both (kind "
    "'stop01'): a second stop CALL from a foreign thread is refused by the stopped portal (MaxStop = 2 "
    "scenarios show exactly that)",
]


def consts(nt, nc, kinds=ALL, maxstop=1, maxcancel=2, futrace=False, chkrace=False, qstep=False):
    b = lambda x: "TRUE" if x else "FALSE"  # noqa: E731
    return {"NT": str(nt), "NC": str(nc), "Kinds": kinds, "MaxStop": str(maxstop),
            "MaxCancel": str(maxcancel), "FutRace": b(futrace), "ChkRace": b(chkrace), "QStep": b(qstep)}


# (name, constants, mode, invariants, extra) per tier
def model_plan(tier: str) -> list[dict]:
    small = '{"sync", "fail", "block", "st", "stop1"}'
    tiny = '{"sync", "block", "stop1"}'
    plan = [
        dict(name="free-n1c2-tiny", c=consts(1, 2, tiny, 1, 1), mode="check", inv=INVS),
        dict(name="free-n2c2-stw", c=consts(2, 2, '{"stw", "stop01"}', 1, 1), mode="check", inv=INVS),
        dict(name="free-n3c4-sim", c=consts(3, 4, ALL, 2, 2), mode="simulate", inv=INVS,
             num=500 if tier == "quick" else 20000),
    ]
    if tier == "thorough":
        plan += [
            dict(name="race-n2c3-sim", c=consts(2, 3, ALL, 1, 2, futrace=True, chkrace=True),
                 mode="simulate", inv=["PropertyHolds", "TypeOK", "GroupJoined"], num=10000),
            dict(name="free-n2c2-tiny", c=consts(2, 2, tiny, 1, 1), mode="check", inv=INVS),
            dict(name="free-n2c2-all", c=consts(2, 2, ALL, 1, 1), mode="check", inv=INVS),
            dict(name="qstep-c3-all", c=consts(1, 3, ALL, 1, 2, qstep=True), mode="check",
                 inv=["PropertyHoldsStrict", "NoCrash", "CancelAlwaysLands"] + INVS[1:]),
            dict(name="race-n2c2-small", c=consts(2, 2, small, 1, 1, futrace=True, chkrace=True),
                 mode="check", inv=["PropertyHolds", "TypeOK", "GroupJoined"]),
        ]
    return plan


def scenario_plan(tier: str) -> list[dict]:
    strict = ["PropertyHoldsStrict", "NoCrash", "CancelAlwaysLands"] + INVS[1:]
    # NT > 1: a "stw" call keeps its thread inside start_task(), further steps need another thread.
    # q-c2-stw is exhaustive (all scenarios of two calls of the STW kinds, none dropped by the cap): it
    # contains "stw; stop1 / stop01 / exit with exception while it waits", "stw; release" and
    # "block; stop01" on every run.
    targeted = dict(name="q-c2-stw", c=consts(2, 2, STW, 1, 1, qstep=True), mode="check", inv=strict,
                    cap=10 ** 6)
    if tier == "quick":
        return [targeted,
                dict(name="q-c4-sim", c=consts(3, 4, ALL, 2, 2, qstep=True), mode="simulate", inv=strict,
                     num=400, cap=250)]
    return [targeted,
            dict(name="q-c4-sim", c=consts(3, 4, ALL, 2, 3, qstep=True), mode="simulate", inv=strict,
                 num=12000, cap=3000)]


WITNESSES = [
    dict(name="witness-C15-A", c=consts(1, 1, '{"sync"}', 0, 1, futrace=True), inv="NoCrash",
         finding="C15-A: Future.cancel() between future.cancelled() and future.set_result() in _call_func "
                 "raises InvalidStateError inside the portal's task group"),
    dict(name="witness-C15-B", c=consts(1, 2, '{"block", "stop0"}', 1, 1), inv="CancelAlwaysLands",
         finding="C15-B: a call accepted concurrently with stop() captures event_loop_thread_id = None; "
                 "cancelling its future does not cancel the task"),
]


def _run_model(rep: core.Report, m: dict, seed: int, cfgdir: Path, emit: bool) -> list[list[dict]]:
    p = cfgdir / f"{m['name']}.cfg"
    kw = dict(constants=m["c"], view="View", invariants=m["inv"])
    if emit:
        kw["action_constraints"] = ["EmitAC"]
    tlc.write_cfg(p, **kw)
    tag = f"{PROP}-{m['name']}"
    if m["mode"] == "simulate":
        # TLC runs num behaviours PER worker; PrintT lines of different workers do not interleave
        r = tlc.run_tlc("MC_C15", p, workers=4, simulate=f"num={max(1, m['num'] // 4)}", depth=400,
                        seed=seed * 7919 + 17, tag=tag, keep_output=emit, timeout=3000)
    else:
        r = tlc.run_tlc("MC_C15", p, workers=1 if emit else TLC_WORKERS, tag=tag, keep_output=emit,
                        timeout=3000)
    if r.violated:
        raise tlc.TLCError(f"model MC_C15/{m['name']} violates {r.violated}\n" + r.output[-3000:])
    if m["mode"] == "simulate":
        import re
        mm = re.search(r"(\d+) states checked, (\d+) traces generated", r.output)
        mg = re.search(r"The number of states generated: (\d+)", r.output)
        n = int(mg.group(1)) if mg else (int(mm.group(1)) if mm else 0)
        rep.states += n
        rep.transitions += n
        rep.models.append({"model": f"MC_C15/{m['name']}", "mode": "simulate", "behaviours": m["num"],
                           "states_checked": n, "wall_s": round(r.wall_s, 1), "constants": m["c"],
                           "invariants": m["inv"]})
    else:
        rep.add_model(f"MC_C15/{m['name']}", r, mode="exhaustive" + ("+emit" if emit else ""),
                      constants=m["c"], invariants=m["inv"])
    if not emit:
        return []
    fs = tlc.payloads(r.lines, "@@F")
    return rp.leaves([f["h"] for f in fs])


def _witness(rep: core.Report, w: dict, cfgdir: Path) -> None:
    p = cfgdir / f"{w['name']}.cfg"
    tlc.write_cfg(p, constants=w["c"], view="View", invariants=[w["inv"]])
    r = tlc.run_tlc("MC_C15", p, workers=2, tag=f"{PROP}-{w['name']}", timeout=600)
    if r.violated != w["inv"]:
        raise tlc.TLCError(f"witness {w['name']}: expected TLC to violate {w['inv']}, got {r.violated}")
    rep.add_model(f"MC_C15/{w['name']}", r, mode="witness (violation expected)", constants=w["c"],
                  expected_violation=w["inv"])
    rep.extra.setdefault("model_level_findings", []).append(
        {"witness": w["name"], "invariant_violated_as_expected": w["inv"], "finding": w["finding"]})


SIG_A = "PortalKilledByCancelRace"


def _stress(rep: core.Report) -> None:
    """Reproduction attempt of model-level finding C15-A on the real code (bounded, see c15_stress)."""
    r = rp.pmap("harness.c15_stress", "stress", [{"seconds": 15}], procs=1)[0]
    if "machinery_error" in r:
        raise tlc.TLCError("stress failed: " + r["machinery_error"])
    rep.extra["stress_C15A"] = r
    if r.get("reproduced"):
        what = (f"C15-A reproduced on the real code after {r['calls']} calls: InvalidStateError left "
                "_call_func, bystander task cancelled")
        if any(f.get("signature") == SIG_A for f in core.known_findings(PROP)):
            rep.violation(what, {"stress": r}, signature=SIG_A)
        else:
            rep.extra["unlisted_finding_reproduced"] = what
            print(f"NOTE property={PROP} {what} (not listed in known_findings.json; see "
                  "notes/finding_C15.md)")


def _steps(hist: list[dict]) -> list[dict]:
    out = []
    for h in hist:
        if h["a"] == "issue":
            out.append({"a": "issue", "t": h["t"], "c": h["c"], "k": h["k"]})
        else:
            out.append({"a": h["a"], "c": h["c"]})
    return out


def main(tier: str, seed: int) -> int:
    rep = core.Report(PROP, tier, seed)
    rep.assumptions += ASSUME
    rng = random.Random(seed)
    cfgdir = core.OUT / PROP
    cfgdir.mkdir(parents=True, exist_ok=True)

    for m in model_plan(tier):
        _run_model(rep, m, seed, cfgdir, emit=False)
    for w in WITNESSES:
        _witness(rep, w, cfgdir)

    scenarios: list[dict] = []
    seen: set[str] = set()
    for m in scenario_plan(tier):
        hs = _run_model(rep, m, seed, cfgdir, emit=True)
        fresh = []
        for h in hs:
            st = _steps(h)
            key = json.dumps(st, sort_keys=True)
            if key not in seen and st:
                seen.add(key)
                fresh.append(st)
        rep.extra.setdefault("scenarios_generated", {})[m["name"]] = len(fresh)
        fresh.sort(key=lambda st: json.dumps(st, sort_keys=True))
        if len(fresh) > m["cap"]:
            fresh = rng.sample(fresh, m["cap"])
        scenarios += [{"steps": st, "src": m["name"]} for st in fresh]

    items = []
    for i, s in enumerate(scenarios):
        for uv in (False, True):
            items.append({"steps": s["steps"], "uvloop": uv, "seed": seed * 1000003 + i, "src": s["src"]})
    from . import c15_run
    c15_run.preload()           # workers are forked: they inherit the imported library
    t0 = time.time()
    results = rp.pmap("harness.c15_run", "run_scenario", items, procs=16, chunk=12)
    rep.extra["replay_wall_s"] = round(time.time() - t0, 1)
    traces = []
    for i, r in enumerate(results):
        if "machinery_error" in r:
            raise tlc.TLCError("replay failed: " + r["machinery_error"])
        traces.append({"id": i, "events": r["events"], "params": r["params"]})
    verdicts = tlc.validate_traces("T_Portal", traces, tag=f"{PROP}-T")
    rep.traces += len(verdicts)
    nontrivial = 0
    unsettled = 0
    loops = {"asyncio": 0, "uvloop": 0}
    for v in verdicts:
        it, r = items[v["id"]], results[v["id"]]
        loops[r["flags"].get("loop", "asyncio")] = loops.get(r["flags"].get("loop", "asyncio"), 0) + 1
        kinds = {e["ev"] for e in r["events"]}
        if {"exec", "exited"} <= kinds:
            nontrivial += 1
        if r["flags"].get("unsettled"):
            unsettled += 1
        if v["bad"]:
            ev = r["events"][v["at"] - 1] if 0 < v["at"] <= len(r["events"]) else None
            rep.violation(f"clause {','.join(v['bad'])} violated at event {v['at']}: {ev} "
                          f"(loop={r['flags'].get('loop')})",
                          {"item": it, "trace": r["events"], "failing_event_index": v["at"],
                           "clauses": v["bad"], "flags": r["flags"]}, signature=",".join(v["bad"]))
    for i in range(0, len(items), max(1, len(items) // 5)):
        rep.sample({"scenario": items[i]["steps"], "uvloop": items[i]["uvloop"],
                    "trace_head": results[i]["events"][:10]})
    rep.evaluations += len(items)
    rep.distinct += nontrivial
    rep.rule = ("scenarios = maximal histories of environment choices (issue call of kind k / Future.cancel / "
                "open gate / leave the portal context) of MC_C15 with QStep = TRUE, deduplicated, each run on "
                "the asyncio loop and on uvloop; non-trivial = at least one callable ran and the portal "
                "context was left in the recorded trace")
    if tier == "thorough":
        _stress(rep)
    rep.extra["loops"] = loops
    rep.extra["scenarios_unsettled_within_timeout"] = unsettled
    rep.extra["exhaustive"] = False
    return rep.finish()


def replay_file(path: str) -> int:
    data = json.loads(Path(path).read_text())
    it = data["replay"]["item"]
    from . import c15_run
    bad = None
    for _ in range(3):  # real threads: give a timing-dependent violation three chances
        r = c15_run.run_scenario(it)
        v = tlc.validate_traces("T_Portal", [{"id": 0, "events": r["events"], "params": r["params"]}],
                                tag=f"{PROP}-replay")[0]
        if v["bad"]:
            bad = (r, v)
            break
    if bad:
        r, v = bad
        print(json.dumps({"trace": r["events"], "verdict": v, "flags": r["flags"]}, indent=1))
        print(f"VIOLATION property={PROP} replay={path}")
        return 1
    print(json.dumps({"verdict": v, "flags": r["flags"]}, indent=1))
    return 0


def replay(path: str) -> int:
    return replay_file(path)
