"""C14 - executes one to_thread.run_sync scenario on the real library with real worker threads.

Binding: *quiescent-step replay* (coarser than the handle-exact replay of the lock/stream checks).
A scenario is what the TLA+ model (spec/MC_C14.tla, QEnv = TRUE) generated: the configuration of the
calls (abandon_on_cancel, kind of thread function, cancelled before the call), the limiter total, and
the order in which the environment opens the gates of the thread functions and cancels the callers'
scopes.  After every environment step the controller waits until nothing moves any more (no thread
function between its gate and its end, no result on its way, the event log stable over several
loop round trips), then records a `quiescent` event.  Events of the loop thread and of the worker
threads are appended to one list under one lock, so their order is the order in which they happened.
"""

from __future__ import annotations

import threading
import time
from typing import Any

from .replay import ensure_repo_on_path

POLL = 0.001         # seconds between two looks at the system
STABLE = 3           # consecutive polls without any new event that count as "nothing moves"
SOFT = 2.0           # give up waiting for a result that is on its way (recorded as a flag)
HARD = 5.0           # give up waiting for a thread function that is busy (recorded as a flag)


class _Val:
    """A return value with identity: run_sync must hand back this very object."""

    __slots__ = ("code",)

    def __init__(self, code: int) -> None:
        self.code = code


class _Log(list):
    """The event log; once closed (the verdict-relevant part of the run is over) it ignores appends."""

    closed = False

    def append(self, x: Any) -> None:
        if not self.closed:
            super().append(x)


class _Err(Exception):
    def __init__(self, code: int) -> None:
        super().__init__(code)
        self.code = code


def run_scenario(scn: dict, backend: str = "asyncio") -> dict:
    ensure_repo_on_path()
    import asyncio
    import concurrent.futures
    import contextvars

    import anyio
    import anyio.lowlevel
    from anyio import from_thread, to_thread

    cfg = scn["cfg"]
    n = len(cfg)
    total = int(scn["total"])
    steps = scn["steps"]
    lock = threading.Lock()
    events = _Log()
    tasks: dict[int, Any] = {}
    flags: dict[str, Any] = {}
    notes: list[str] = []
    calls = range(1, n + 1)
    gates = {c: threading.Event() for c in calls}
    cstate = {c: "new" for c in calls}       # new / call / ended
    fstate = {c: "no" for c in calls}        # no / run / end
    parked = {c: False for c in calls}
    sent: dict[int, Any] = {}                # what the thread function returned / raised (identity)
    scopes: dict[int, Any] = {}
    var: contextvars.ContextVar[int] = contextvars.ContextVar("c14", default=0)
    loop_thread = [0]
    given_up: set[int] = set()
    given_up_starting = [0]
    cancelled_cls: list[Any] = [BaseException]

    def log(**ev: Any) -> None:
        with lock:
            events.append(ev)

    # ------------------------------------------------------------------ call-backs into the loop
    def g(c: int) -> int:
        return 40 + c if threading.get_ident() == loop_thread[0] else 0

    async def r(c: int) -> int:
        await anyio.lowlevel.checkpoint()
        return 50 + c if threading.get_ident() == loop_thread[0] else 0

    # ------------------------------------------------------------------ the thread function
    def f(c: int) -> Any:
        kind = cfg[c - 1]["kind"]
        with lock:
            events.append({"ev": "fstart", "c": c, "ctx": var.get()})
            fstate[c] = "run"
            parked[c] = True
        if not gates[c].wait(timeout=30):
            notes.append(f"gate {c} never opened")
        with lock:
            parked[c] = False
        try:
            if kind == "ret":
                out: Any = _Val(20 + c)
            elif kind == "raise":
                out = _Err(30 + c)
            elif kind == "cc":
                try:
                    from_thread.check_cancelled()
                    saw = 0
                except cancelled_cls[0]:
                    saw = 1
                log(ev="cc", c=c, saw=saw)
                out = _Val(60 + saw)
            else:
                how = "sync" if kind == "rsync" else "async"
                try:
                    v = from_thread.run_sync(g, c) if kind == "rsync" else from_thread.run(r, c)
                except concurrent.futures.CancelledError as exc:
                    log(ev="cb", c=c, how=how, res="cancelled", val=0)
                    exc.code = 70 + c  # type: ignore[attr-defined]
                    out = exc
                except BaseException as exc:  # noqa: BLE001 - reported through the observer
                    notes.append(f"call-back of {c} raised {exc!r}")
                    log(ev="cb", c=c, how=how, res="error", val=0)
                    exc.code = 0  # type: ignore[attr-defined]
                    out = exc
                else:
                    log(ev="cb", c=c, how=how, res="ok", val=v if isinstance(v, int) else 0)
                    out = _Val(v if isinstance(v, int) else 0)
        except BaseException as exc:  # noqa: BLE001 - harness trouble, never swallowed silently
            notes.append(f"thread function {c}: {exc!r}")
            out = _Val(0)
        with lock:
            sent[c] = out
            isexc = isinstance(out, BaseException)
            events.append({"ev": "fend", "c": c, "out": "e" if isexc else "v",
                           "val": int(getattr(out, "code", 0))})
            fstate[c] = "end"
        if isinstance(out, BaseException):
            raise out
        return out

    # ------------------------------------------------------------------ the callers
    async def caller(c: int, lim: Any) -> None:
        cancelled_exc = anyio.get_cancelled_exc_class()
        tasks[c] = asyncio.current_task()
        with anyio.CancelScope(shield=bool(cfg[c - 1].get("osh"))) as sc:
            scopes[c] = sc
            var.set(10 + c)
            with lock:
                events.append({"ev": "call", "c": c, "ab": 1 if cfg[c - 1]["ab"] else 0,
                               "kind": cfg[c - 1]["kind"]})
                cstate[c] = "call"
            if cfg[c - 1]["pre"]:
                log(ev="creq", c=c)
                sc.cancel()
            try:
                res = await to_thread.run_sync(f, c, abandon_on_cancel=bool(cfg[c - 1]["ab"]),
                                               limiter=lim)
            except cancelled_exc:
                with lock:
                    events.append({"ev": "ret", "c": c, "out": "cancelled", "val": 0})
                    cstate[c] = "ended"
                raise
            except BaseException as exc:  # noqa: BLE001
                with lock:
                    same = sent.get(c) is exc
                    if not same:
                        notes.append(f"call {c} raised {exc!r}, function outcome {sent.get(c)!r}")
                    events.append({"ev": "ret", "c": c, "out": "e",
                                   "val": int(getattr(exc, "code", 0)) if same else 0})
                    cstate[c] = "ended"
            else:
                with lock:
                    same = sent.get(c) is res and res is not None
                    if not same:
                        notes.append(f"call {c} returned {res!r}, function outcome {sent.get(c)!r}")
                    events.append({"ev": "ret", "c": c, "out": "v",
                                   "val": int(getattr(res, "code", 0)) if same else 0})
                    cstate[c] = "ended"
            try:
                await anyio.lowlevel.checkpoint()
            except cancelled_exc:
                log(ev="cp", c=c, res="cancelled")
                raise
            log(ev="cp", c=c, res="ok")

    # ------------------------------------------------------------------ the controller
    async def quiesce(lim: Any, final: int = 0) -> None:
        t0 = time.monotonic()
        last = -1
        stable = 0
        polls = 0
        while True:
            await anyio.sleep(POLL)
            polls += 1
            with lock:
                nev = len(events)
                busy = any(fstate[c] == "run" and not (parked[c] and not gates[c].is_set())
                           for c in calls)
                coming = {c for c in calls if fstate[c] == "end" and cstate[c] == "call"} - given_up
                started = sum(1 for c in calls if cstate[c] == "call" and fstate[c] != "no")
            # a token holder whose function is not running yet
            starting = lim.borrowed_tokens > started + given_up_starting[0]
            stable = stable + 1 if nev == last else 0
            last = nev
            dt = time.monotonic() - t0
            if stable < STABLE and dt <= 3 * HARD:
                continue                      # something was logged a moment ago (or the process stalled)
            if not busy and not coming and not starting:
                break
            # time-outs need wall time AND loop activity: a stalled process is not a time-out
            if not busy and dt > SOFT and polls >= 300:
                # recorded, and not waited for again in this scenario
                flags["soft_timeout"] = flags.get("soft_timeout", 0) + 1
                given_up.update(coming)
                if starting:
                    given_up_starting[0] = lim.borrowed_tokens - started
                break
            if dt > HARD and polls >= 1000:
                flags["hard_timeout"] = flags.get("hard_timeout", 0) + 1
                break
        with lock:
            events.append({"ev": "quiescent", "borrowed": int(lim.borrowed_tokens), "final": final})

    async def controller() -> None:
        loop_thread[0] = threading.get_ident()
        cancelled_cls[0] = anyio.get_cancelled_exc_class()
        lim = anyio.CapacityLimiter(total)
        try:
            async with anyio.create_task_group() as tg:
                for c in calls:
                    tg.start_soon(caller, c, lim)
                try:
                    await quiesce(lim)
                    for st in steps:
                        c = int(st["c"])
                        if st["a"] == "gate":
                            gates[c].set()
                        elif c in scopes:
                            log(ev="creq", c=c)
                            scopes[c].cancel()
                        await quiesce(lim)
                finally:
                    with anyio.CancelScope(shield=True):
                        for c in calls:
                            if not gates[c].is_set():
                                gates[c].set()
                                await quiesce(lim)
                        # every gate is open: every call has to end now.  A call that does not
                        # (only seen with broken code) is recorded by the final event and then
                        # torn down with a native Task.cancel() so that the run can finish.
                        t0 = time.monotonic()
                        polls = 0
                        while any(cstate[c] == "call" for c in calls) and \
                                (time.monotonic() - t0 < 2 * SOFT or polls < 1000):
                            await anyio.sleep(POLL)
                            polls += 1
                        stuck = [c for c in calls if cstate[c] == "call"]
                        if stuck:
                            flags["stuck_calls"] = stuck
                            with lock:
                                events.append({"ev": "quiescent", "borrowed": int(lim.borrowed_tokens),
                                               "final": 1})
                                events.closed = True
                            for c in stuck:
                                tasks[c].cancel()
        except BaseException as exc:  # noqa: BLE001
            if not events.closed:
                raise
            flags["teardown"] = repr(exc)[:200]
        finally:
            for c in calls:
                gates[c].set()
        # abandoned functions may still be running: let them end before the loop goes away
        t0 = time.monotonic()
        while any(fstate[c] == "run" for c in calls) and time.monotonic() - t0 < HARD:
            await anyio.sleep(POLL)
        await anyio.sleep(POLL)
        with lock:
            events.append({"ev": "quiescent", "borrowed": int(lim.borrowed_tokens), "final": 1})

    opts = {"use_uvloop": True} if backend == "uvloop" else {}
    try:
        anyio.run(controller, backend="asyncio", backend_options=opts)
    except BaseException as exc:  # noqa: BLE001 - a crash of the run is itself evidence
        if not events.closed:
            flags["crash"] = repr(exc)[:300]
            with lock:
                events.append({"ev": "crash"})
    finally:
        for c in calls:
            gates[c].set()
    with lock:
        evs = list(events)
    final = {}
    for c in calls:
        rets = [e for e in evs if e["ev"] == "ret" and e["c"] == c]
        fends = [e for e in evs if e["ev"] == "fend" and e["c"] == c]
        final[str(c)] = {"out": rets[0]["out"] if rets else "none",
                         "fs": fstate[c],
                         "fout": fends[0]["out"] if fends else "none",
                         "fval": fends[0]["val"] if fends else 0}
    if notes:
        flags["notes"] = notes[:6]
    return {"events": evs, "params": {"total": total, "n": n}, "final": final, "flags": flags,
            "backend": backend}


def run_item(item: dict) -> dict:
    """Entry point for harness.replay.pmap: one (scenario, backend) pair."""
    return run_scenario(item["scn"], backend=item["backend"])
