import anyio
from anyio import Condition, create_task_group, wait_all_tasks_blocked
async def main():
    c = Condition()
    await c.acquire()
    c.release()
    try:
        c.notify(); print("notify after release: NOT refused")
    except RuntimeError as e: print("refused:", e)
    try:
        c.notify_all(); print("notify_all after release: NOT refused")
    except RuntimeError as e: print("refused:", e)
    # wait after release, with another task holding the lock
    async def other():
        async with c:
            await anyio.sleep(0.05)
    async with create_task_group() as tg:
        tg.start_soon(other)
        await wait_all_tasks_blocked()
        print("lock owner is other:", c.statistics().lock_statistics.owner)
        try:
            c.notify(); print("notify while OTHER holds lock: NOT refused")
        except RuntimeError as e: print("refused:", e)
    # fresh condition, never acquired
    c2 = Condition()
    try:
        c2.notify(); print("fresh notify NOT refused")
    except RuntimeError as e: print("fresh refused:", e)
anyio.run(main)


async def stale_waiter():
    """wait() by a task that no longer holds the lock leaves a stale waiter behind."""
    from anyio import Condition, create_task_group, wait_all_tasks_blocked

    c = Condition()
    await c.acquire()
    c.release()
    try:
        await c.wait()
    except RuntimeError as e:
        print("wait() without the lock raised:", e)
    print("stale waiters left behind:", c.statistics().tasks_waiting)

    woken = []

    async def real_waiter():
        async with c:
            await c.wait()
            woken.append("real")

    async with create_task_group() as tg:
        tg.start_soon(real_waiter)
        await wait_all_tasks_blocked()
        async with c:
            c.notify(1)
        await wait_all_tasks_blocked()
        print("after notify(1): woken =", woken, "still waiting =", c.statistics().tasks_waiting)
        tg.cancel_scope.cancel()


anyio.run(stale_waiter)
