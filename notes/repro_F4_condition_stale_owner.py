import anyio
from anyio import Condition, create_task_group, wait_all_tasks_blocked
async def main():
    c = Condition()
    await c.acquire()
    c.release()
    try:
        c.notify(); print("notify after release: NOT refused")
    except RuntimeError as e: print("refused:", e)
    try:
        c.notify_all(); print("notify_all after release: NOT refused")
    except RuntimeError as e: print("refused:", e)
    # wait after release, with another task holding the lock
    async def other():
        async with c:
            await anyio.sleep(0.05)
    async with create_task_group() as tg:
        tg.start_soon(other)
        await wait_all_tasks_blocked()
        print("lock owner is other:", c.statistics().lock_statistics.owner)
        try:
            c.notify(); print("notify while OTHER holds lock: NOT refused")
        except RuntimeError as e: print("refused:", e)
    # fresh condition, never acquired
    c2 = Condition()
    try:
        c2.notify(); print("fresh notify NOT refused")
    except RuntimeError as e: print("fresh refused:", e)
anyio.run(main)
