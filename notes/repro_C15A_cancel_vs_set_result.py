"""Finding C15-A: Future.cancel() racing with _call_func's `if not future.cancelled(): future.set_result()`.

A caller thread cancels the future of a call between the check and the set: set_result() raises
concurrent.futures.InvalidStateError INSIDE the portal's task group, which cancels every other
task of the portal and ends the portal (a bystander call is cancelled although nobody asked).
Stress reproduction (no patching): typically < 20,000 calls with switch interval 1e-6.
Run: /venv/bin/python notes/repro_C15A_cancel_vs_set_result.py
"""
import os
import sys
import threading
import time

sys.path.insert(0, os.path.join(os.environ.get("VERIF_REPO", "/repo"), "src"))
import anyio  # noqa: E402
from anyio.from_thread import BlockingPortal  # noqa: E402

sys.setswitchinterval(1e-6)
res = {}


def fn():
    return 1


def worker(portal):
    n = 0
    bystander = portal.start_task_soon(anyio.sleep, 3600)
    t0 = time.time()
    while time.time() - t0 < 120 and not bystander.done():
        n += 1
        try:
            f = portal.start_task_soon(fn)
        except RuntimeError:      # the portal is gone already
            break
        f.cancel()
    res["calls"] = n
    res["bystander"] = repr(bystander)
    try:
        portal.call(portal.stop, True)
    except RuntimeError as exc:
        res["stop"] = repr(exc)


async def main():
    async with BlockingPortal() as portal:
        th = threading.Thread(target=worker, args=(portal,))
        th.start()
        await portal.sleep_until_stopped()


try:
    anyio.run(main)
    print("not reproduced", res)
except BaseException as exc:  # noqa: BLE001
    import traceback

    traceback.print_exception(exc)
    print("REPRODUCED", res)
