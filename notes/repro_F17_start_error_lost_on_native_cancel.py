"""F17: the exception of a start()ed child that failed before started() is dropped when the caller of
start() is cancelled natively before it resumes.  Run: PYTHONPATH=/repo/src /venv/bin/python this_file
Prints the outcome; exit 1 when the exception is lost (current behaviour)."""
import asyncio
import sys

import anyio


async def main() -> int:
    seen: list[BaseException] = []

    async def child(*, task_status) -> None:
        raise ValueError("child failed before started()")

    async def caller(tg) -> None:
        try:
            await tg.start(child)
        except BaseException as exc:  # noqa: BLE001
            seen.append(exc)
            raise

    try:
        async with anyio.create_task_group() as tg:
            other = asyncio.ensure_future(anyio.sleep(0))     # keeps nothing alive; just a yield point
            t = asyncio.get_running_loop().create_task(caller(tg))
            # let the caller spawn the child and the child fail: its exception is now on the future
            while not t.done() and not any(isinstance(x, ValueError) for x in seen):
                await asyncio.sleep(0)
                # cancel the caller in the iteration in which the child's done-callback has run
                if not tg._tasks and not t.done():          # child finished, caller not resumed yet
                    t.cancel()
                    break
            await asyncio.wait([t])
            await other
    except BaseException as exc:  # noqa: BLE001
        seen.append(exc)
    lost = not any(isinstance(x, ValueError) or (isinstance(x, BaseExceptionGroup)
                   and x.subgroup(ValueError)) for x in seen)
    print("caller saw:", [type(x).__name__ for x in seen], "-> child's ValueError",
          "LOST" if lost else "surfaced")
    return 1 if lost else 0


sys.exit(asyncio.run(main()))
