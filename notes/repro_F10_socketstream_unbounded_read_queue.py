"""F10 (C18): asyncio SocketStream buffers without bound while nobody is inside receive().

Run: /venv/bin/python notes/repro_F10_socketstream_unbounded_read_queue.py
Expected with back-pressure: send() stops being accepted after about the kernel buffers (a few MB,
first line).  Observed: tens of MB accepted and held in StreamProtocol.read_queue (lines 2-4).
"""
import sys; sys.path.insert(0,'/repo/src')
import anyio, socket
from anyio.abc import SocketAttribute
async def pair():
    ml = await anyio.create_tcp_listener(local_host='127.0.0.1', local_port=0)
    lst = ml.listeners[0]
    port = lst.extra(SocketAttribute.local_port)
    res = {}
    async with anyio.create_task_group() as tg:
        async def acc(): res['s'] = await lst.accept()
        tg.start_soon(acc)
        c = await anyio.connect_tcp('127.0.0.1', port)
    await lst.aclose()
    return c, res['s']
async def flood(w, r, label):
    sent = 0
    async def writer():
        nonlocal sent
        while True:
            await w.send(b'x' * 65536); sent += 65536
    async with anyio.create_task_group() as tg:
        tg.start_soon(writer)
        await anyio.sleep(0.3)          # the reader does not read at all
        tg.cancel_scope.cancel()
    q = sum(map(len, r._protocol.read_queue))
    print(f'{label}: send() accepted {sent} bytes, reader read 0, protocol queue holds {q}')
async def main():
    c, s = await pair()
    await flood(s, c, 'server->client (client from connect_tcp)')
    await c.aclose(); await s.aclose()
    c, s = await pair()
    await flood(c, s, 'client->server (server from accept)')
    await c.aclose(); await s.aclose()
    c, s = await pair()
    with anyio.move_on_after(0.01):
        await c.receive()               # times out: cancelled while waiting
    await flood(s, c, 'server->client after a timed-out receive() on the client')
    await c.aclose(); await s.aclose()
    a, b = socket.socketpair()
    sa = await anyio.abc.SocketStream.from_socket(a); sb = await anyio.abc.SocketStream.from_socket(b)
    await flood(sa, sb, 'SocketStream.from_socket pair')
anyio.run(main)
