import anyio, math
from anyio import CapacityLimiter, create_task_group, sleep, wait_all_tasks_blocked

async def main():
    lim = CapacityLimiter(2)
    lim.acquire_on_behalf_of_nowait("a")
    lim.acquire_on_behalf_of_nowait("b")
    lim.total_tokens = 0          # lowered below borrowed (2)
    got = []
    async def waiter():
        await lim.acquire_on_behalf_of("w")
        got.append("w")
    async with create_task_group() as tg:
        tg.start_soon(waiter)
        await wait_all_tasks_blocked()
        print("before raise", lim.statistics())
        lim.total_tokens = 1      # raise to 1: still 2 borrowed > 1 => nothing free
        await wait_all_tasks_blocked()
        print("after raise", lim.statistics(), "granted:", got, "available", lim.available_tokens)
        tg.cancel_scope.cancel()
anyio.run(main)
