import anyio
from anyio import create_task_group, sleep, CancelScope, TASK_STATUS_IGNORED

async def child(task_status=TASK_STATUS_IGNORED):
    try:
        await sleep(10)   # never calls started()
    finally:
        raise ValueError("cleanup failed")

async def main():
    try:
        async with create_task_group() as tg:
            with CancelScope() as sc:
                async def canceller():
                    await sleep(0.01)
                    sc.cancel()
                tg.start_soon(canceller)
                try:
                    await tg.start(child)
                except BaseException as e:
                    print("start raised", type(e), e)
                    raise
            print("after scope, cancelled_caught", sc.cancelled_caught)
        print("group exited cleanly -> exception LOST")
    except BaseException as e:
        print("group raised", repr(e), getattr(e, 'exceptions', None))
anyio.run(main)
