"""C18 side finding: SocketStream.aclose() raises AttributeError when the transport's write buffer
drains between transport.close() and transport.abort().

Run: /venv/bin/python notes/repro_C18_aclose_attributeerror.py
aclose() does close(); await sleep(0); abort().  If a send() left data in the transport's buffer (it
timed out / was cancelled, or is still blocked in another task) and the kernel accepts the rest during
that one sleep(0), asyncio's _write_ready() finishes the close itself (_call_connection_lost, which
sets transport._loop = None without touching _conn_lost) and the following abort() runs
_force_close() -> self._loop.call_soon -> AttributeError: 'NoneType' object has no attribute 'call_soon'.
"""
import socket
import sys

sys.path.insert(0, "/repo/src")
import anyio  # noqa: E402


async def attempt(size: int) -> int:
    a, b = socket.socketpair()
    a.setsockopt(socket.SOL_SOCKET, socket.SO_SNDBUF, 8192)
    b.setblocking(False)
    stream = await anyio.abc.SocketStream.from_socket(a)
    with anyio.move_on_after(0.05):          # the peer does not read: send() blocks and times out
        await stream.send(b"x" * size)

    def drain() -> None:                     # the peer reads everything the kernel holds (no await)
        try:
            while b.recv(1 << 22):
                pass
        except BlockingIOError:
            pass

    prev = stream._transport.get_write_buffer_size()
    step = 0
    for _ in range(10_000):
        drain()
        await anyio.sleep(0)                 # the transport moves the next piece into the kernel
        left = stream._transport.get_write_buffer_size()
        step = max(step, prev - left)
        prev = left
        if left <= step // 2:                # what is left fits into an empty kernel buffer
            break
    drain()                                  # ... which is empty now; nothing more has been flushed yet
    await anyio.sleep(0)                     # the loop has seen "writable": _write_ready is queued behind us
    print(f"size {size}: {left} bytes left in the transport buffer, {step} bytes go into the kernel at a time")
    try:
        await stream.aclose()
        print("  aclose() returned normally")
    except Exception as exc:  # noqa: BLE001
        print("  aclose() raised", repr(exc))
    b.close()
    return step


async def main() -> None:
    step = await attempt(1_000_000)          # learn how much the kernel takes at a time
    for r in (step // 4, step // 3, step // 2 - 1):
        await attempt(40 * step + r)


anyio.run(main)
