"""F12 (C01): a task spawned into a task group while that group's __aexit__ sits in the
checkpoint of its "no children" branch is not joined: the block ends while the child is pending."""
import anyio


async def main() -> None:
    log = []
    holder = {}

    async def late_child() -> None:
        log.append("child started")
        await anyio.sleep(0.05)
        log.append("child finished")

    async def spawner() -> None:
        # runs while the inner group's __aexit__ is suspended in cancel_shielded_checkpoint()
        holder["handle"] = holder["tg"].start_soon(late_child)
        log.append("spawned into the exiting group")

    async with anyio.create_task_group() as outer:
        async with anyio.create_task_group() as inner:
            holder["tg"] = inner
            outer.start_soon(spawner)
            # body ends with no children in `inner`: __aexit__ takes the else branch and yields once
        log.append("inner block finished")
        status = holder["handle"].status.name
        log.append(f"late child status right after the block: {status}")

    print(log)
    ok = log.index("inner block finished") > log.index("child finished") if "child finished" in log else False
    print("PASS" if ok else "FAIL: the inner task group block finished while a task started in it was still pending")


anyio.run(main)
