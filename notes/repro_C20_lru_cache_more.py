import sys; sys.path.insert(0, "/repo/src")
import anyio
from anyio import create_task_group, Event, wait_all_tasks_blocked
from anyio.functools import lru_cache, lru_cache_items

def mk(**kw):
    st = {"gates": {}, "n": 0, "running": {}, "maxrun": 0, "fail": set(), "log": []}
    @lru_cache(**kw)
    async def f(k):
        st["n"] += 1; x = st["n"]
        st["running"][k] = st["running"].get(k, 0) + 1
        st["maxrun"] = max(st["maxrun"], st["running"][k])
        st["log"].append(("xstart", k, x))
        g = st["gates"][x] = Event()
        try:
            await g.wait()
            if x in st["fail"]: raise ValueError(x)
            return (k, x)
        finally:
            st["running"][k] -= 1
            st["log"].append(("xend", k, x))
    return f, st

async def call(f, k, out, tag):
    try: out[tag] = ("ok", await f(k))
    except BaseException as e: out[tag] = ("exc", repr(e))

async def s3():
    # single flight broken: maxsize=1; A k1 in flight; B k2 evicts k1 placeholder; C k1 -> new placeholder -> concurrent
    f, st = mk(maxsize=1); out = {}
    async with create_task_group() as tg:
        tg.start_soon(call, f, 1, out, "A"); await wait_all_tasks_blocked()
        tg.start_soon(call, f, 2, out, "B"); await wait_all_tasks_blocked()
        tg.start_soon(call, f, 1, out, "C"); await wait_all_tasks_blocked()
        print("s3 log", st["log"], "maxrun", st["maxrun"])
        for g in list(st["gates"].values()): g.set()
    print("s3", out, f.cache_info(), dict(lru_cache_items.get()[f]))

async def s3b():
    # one key, failure: A fails, B retries (pops own placeholder), C arrives
    f, st = mk(maxsize=1); out = {}; st["fail"].add(1)
    async with create_task_group() as tg:
        tg.start_soon(call, f, 1, out, "A"); await wait_all_tasks_blocked()
        st["gates"][1].set(); await wait_all_tasks_blocked()
        tg.start_soon(call, f, 1, out, "B"); await wait_all_tasks_blocked()
        tg.start_soon(call, f, 1, out, "C"); await wait_all_tasks_blocked()
        print("s3b log", st["log"], "maxrun", st["maxrun"])
        for g in list(st["gates"].values()): g.set()
    print("s3b", out, f.cache_info())

async def s4():
    # ttl in place
    import asyncio
    f, st = mk(maxsize=2, ttl=1); out = {}
    async def seq(k, tag):
        async with create_task_group() as tg:
            tg.start_soon(call, f, k, out, tag); await wait_all_tasks_blocked()
            n = st["n"]
            if n in st["gates"] and not st["gates"][n].is_set(): st["gates"][n].set()
    await seq(1, "a"); await seq(2, "b")
    await anyio.sleep(1.1)
    await seq(1, "c")   # expired, recompute in place
    await seq(3, "d")   # evicts ? 
    print("s4 order", list(lru_cache_items.get()[f].keys()), out)
    n0 = st["n"]
    await seq(1, "e")
    print("s4 k1 recomputed again:", st["n"] != n0, out["e"])

async def main():
    await s3(); await s3b(); await s4()
anyio.run(main)
