"""Finding C15-B: a call accepted concurrently with stop() cannot be cancelled through its future.

_call_func captures portal._event_loop_thread_id when the TASK starts, not when the call is accepted.
If stop() runs in between (the caller passed _check_running() before), the captured value is None
and the future's done-callback does nothing: Future.cancel() returns True, the caller sees a
cancelled future, but the task keeps running, and leaving the portal context waits for it.
The window (between _check_running() and the first step of the task) is widened here with a hook on
_check_running; without the hook the same order needs a thread switch at that point (TLC finds it
in spec/MC_C15.tla, invariant CancelAlwaysLands, without any widening).
Run: /venv/bin/python notes/repro_C15B_stop_vs_accepted_call.py
"""
import os
import sys
import threading
import time

sys.path.insert(0, os.path.join(os.environ.get("VERIF_REPO", "/repo"), "src"))
import anyio  # noqa: E402
from anyio.from_thread import start_blocking_portal  # noqa: E402

log = []


async def blocker(ev):
    log.append("body started")
    try:
        await ev.wait()
    except BaseException as exc:
        log.append(f"body got {type(exc).__name__}")
        raise
    log.append("body finished normally")
    return 7


with start_blocking_portal() as portal:
    ev = portal.call(anyio.Event)
    keeper_ev = portal.call(anyio.Event)
    keeper = portal.start_task_soon(keeper_ev.wait)   # keeps the task group joining after stop()
    loop = portal.call(__import__("asyncio").get_running_loop)
    orig = portal._check_running
    in_window, go = threading.Event(), threading.Event()

    def check():
        orig()
        if threading.current_thread().name == "A":
            in_window.set()
            go.wait()          # thread A is "preempted" between _check_running() and run_sync()

    portal._check_running = check
    out = {}
    ta = threading.Thread(target=lambda: out.update(f=portal.start_task_soon(blocker, ev)), name="A")
    ta.start()
    in_window.wait()
    portal.call(portal.stop)   # thread B: stop(cancel_remaining=False)
    go.set()
    ta.join()
    f = out["f"]
    time.sleep(0.2)
    print("Future.cancel() ->", f.cancel(), "; cancelled():", f.cancelled())
    time.sleep(0.5)
    print("after cancel:", log)
    reproduced = log == ["body started"]
    loop.call_soon_threadsafe(ev.set)   # otherwise leaving the context would wait forever
    loop.call_soon_threadsafe(keeper_ev.set)
    time.sleep(0.3)
    print("after opening the gate:", log)
print("REPRODUCED" if reproduced else "not reproduced")
