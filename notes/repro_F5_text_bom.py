import anyio
from anyio import create_memory_object_stream
from anyio.streams.text import TextSendStream, TextReceiveStream
from anyio.streams.stapled import StapledObjectStream
async def main():
    for enc in ("utf-8","utf-16","utf-32","latin-1","utf-16-le","utf-8-sig"):
        s, r = create_memory_object_stream[bytes](10)
        ts = TextSendStream(s, enc); tr = TextReceiveStream(r, enc)
        for part in ("ab", "cd", "é"):
            await ts.send(part)
        await ts.aclose()
        out = []
        try:
            while True: out.append(await tr.receive())
        except anyio.EndOfStream: pass
        print(enc, repr("".join(out)), "".join(out) == "abcdé")
anyio.run(main)
