"""F16 (C18; first reported as F11): UNIXSocketStream.aclose() on uvloop does not close the socket while a receive() AND a send() are blocked.

Run: /venv/bin/python notes/repro_F11_unix_stream_close_on_uvloop.py
Expected: after aclose() every blocked call raises ClosedResourceError (as on stock asyncio, first 3 cases,
and on uvloop when only one direction is blocked).  Observed on uvloop with both directions blocked:
both calls stay blocked for ever and the descriptor stays open (fileno unchanged).
(The tracebacks printed by stock asyncio - remove_reader / remove_writer on the closed socket inside the
future callbacks - are a separate wart: logged by the loop, not raised.)
"""
import sys; sys.path.insert(0,'/repo/src')
import anyio, socket
async def main(with_send, with_recv):
    a, b = socket.socketpair()
    sa = await anyio.abc.UNIXSocketStream.from_socket(a)
    res = {}
    async def reader():
        try:
            res['r'] = await sa.receive(100)
        except Exception as e:
            res['r'] = repr(e)
    async def sender():
        try:
            await sa.send(b'x' * 10_000_000); res['s'] = 'ok'
        except Exception as e:
            res['s'] = repr(e)
    async with anyio.create_task_group() as tg:
        if with_recv: tg.start_soon(reader)
        if with_send: tg.start_soon(sender)
        await anyio.sleep(0.05)
        print('  futures before:', sa._receive_future, sa._send_future, 'fileno', sa._raw_socket.fileno())
        await sa.aclose()
        print('  futures after:', sa._receive_future, sa._send_future, 'fileno', sa._raw_socket.fileno())
        with anyio.move_on_after(0.5):
            while (with_recv and 'r' not in res) or (with_send and 's' not in res): await anyio.sleep(0.01)
        print('  blocked receive ->', res.get('r', 'STILL BLOCKED' if with_recv else '-'), '| blocked send ->', res.get('s', 'STILL BLOCKED' if with_send else '-'))
        tg.cancel_scope.cancel()
    b.close()
for uv in (False, True):
    for ws, wr in ((False, True), (True, False), (True, True)):
        print('uvloop' if uv else 'asyncio', 'send' if ws else '', 'recv' if wr else '')
        try:
            anyio.run(main, ws, wr, backend_options={'use_uvloop': uv})
        except BaseException as e: print('run raised', repr(e)[:200])
