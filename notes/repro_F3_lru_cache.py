import anyio
from anyio import create_task_group, Event, wait_all_tasks_blocked
from anyio.functools import lru_cache

gates = {}
fail = set()
@lru_cache(maxsize=1)
async def f(k):
    await gates[k].wait()
    if k in fail: raise ValueError(k)
    return k*10

async def call(k, out, tag):
    try:
        out[tag] = ("ok", await f(k))
    except BaseException as e:
        out[tag] = ("exc", repr(e))

async def main():
    # scenario 1: KeyError leak
    gates[1] = Event(); gates[2] = Event(); fail.add(1)
    out = {}
    async with create_task_group() as tg:
        tg.start_soon(call, 1, out, "A")
        await wait_all_tasks_blocked()
        tg.start_soon(call, 1, out, "C")   # waits on k1's lock
        await wait_all_tasks_blocked()
        tg.start_soon(call, 2, out, "B")   # evicts in-flight k1 placeholder
        await wait_all_tasks_blocked()
        gates[1].set()
        await wait_all_tasks_blocked()
        gates[2].set()
    print("scenario1", out, f.cache_info())
    # scenario 2: exceeds maxsize
    f.cache_clear(); fail.clear()
    gates[1] = Event(); gates[2] = Event()
    out = {}
    async with create_task_group() as tg:
        tg.start_soon(call, 1, out, "A")
        await wait_all_tasks_blocked()
        tg.start_soon(call, 2, out, "B")
        await wait_all_tasks_blocked()
        gates[1].set(); gates[2].set()
    from anyio.functools import lru_cache_items
    entries = lru_cache_items.get()[f]
    print("scenario2", out, f.cache_info(), "retained:", dict(entries))
anyio.run(main)
