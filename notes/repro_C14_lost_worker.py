import sys, threading, time
sys.path.insert(0, "/repo/src")
import anyio
from anyio import to_thread

ran = []

async def main():
    for i in range(20):
        async with anyio.create_task_group() as tg:
            scope = anyio.CancelScope()
            async def a():
                with scope:
                    await to_thread.run_sync(ran.append, i, abandon_on_cancel=True)
            async def b():
                await anyio.sleep(0); await anyio.sleep(0)
                scope.cancel()
            tg.start_soon(a); tg.start_soon(b)
        await anyio.sleep(0.01)
    print("calls=20 functions run:", len(ran), "threads alive:", threading.active_count())

anyio.run(main)
