import anyio, asyncio
from anyio import create_memory_object_stream, create_task_group, wait_all_tasks_blocked
async def main():
    s, r = create_memory_object_stream[int](0)
    got=[]
    async def receiver():
        try:
            got.append(await r.receive())
        except BaseException as e:
            got.append(repr(e)); raise
    t = asyncio.get_running_loop().create_task(receiver())
    await asyncio.sleep(0.01)
    s.send_nowait(1)      # handed to blocked receiver
    t.cancel()            # native cancel in the same cycle
    try: await t
    except BaseException as e: print("receiver task ended", repr(e))
    print("receiver saw:", got, "stats:", r.statistics())
    try:
        print("receive_nowait ->", r.receive_nowait())
    except BaseException as e:
        print("item gone:", repr(e))
anyio.run(main)
