#!/usr/bin/env python3
"""Assembles DESIGN.md from notes/design/*.md and the table of mutation results
(notes/selftest_results.json, maintained by tools/collect_seedruns.py)."""
import json
from pathlib import Path

ROOT = Path(__file__).resolve().parent.parent
parts = [p.read_text() for p in sorted((ROOT / "notes" / "design").glob("*.md"))]
doc = "\n".join(parts)
res_file = ROOT / "notes" / "selftest_results.json"
rows = json.loads(res_file.read_text()) if res_file.exists() else []
lines = ["### 6.1 Which check catches which change (last runs)", "",
         "| change | kind | check (tier) | result | first failing clause |", "|---|---|---|---|---|"]
for r in sorted(rows, key=lambda r: (r["change"], r["check"])):
    lines.append(f"| {r['change']} | {r['kind']} | {r['check']} ({r['tier']}) | {r['result']} | {r.get('clause', '')} |")
doc = doc.replace("SEEDTABLE", "\n".join(lines))
(ROOT / "DESIGN.md").write_text(doc)
print("DESIGN.md written,", len(doc.splitlines()), "lines,", len(rows), "mutation results")
