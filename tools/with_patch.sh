#!/bin/bash
# tools/with_patch.sh <patch.diff> <command...>
# Runs <command> with VERIF_REPO pointing at a scratch worktree of /repo with the patch applied.
# The worktree lives under /tmp and is removed afterwards.
set -u
patch="$(realpath "$1")"; shift
wt="$(mktemp -d /tmp/anyio-mut-XXXXXX)"
git -C /repo worktree add --detach "$wt" HEAD >/dev/null 2>&1 || { echo "worktree failed"; exit 2; }
# carry over uncommitted changes of /repo (normally none)
if ! git -C "$wt" apply "$patch"; then
  echo "patch does not apply"; git -C /repo worktree remove --force "$wt"; exit 2
fi
export VERIF_OUT="/verif/out/mut-$$"
export VERIF_EVIDENCE="$VERIF_OUT/evidence"
mkdir -p "$VERIF_EVIDENCE"
VERIF_REPO="$wt" "$@"
rc=$?
git -C /repo worktree remove --force "$wt"
rm -rf "$wt"
rm -rf "$VERIF_OUT/tlc-meta" "$VERIF_OUT/traces"
exit $rc
