#!/usr/bin/env python3
"""Collects the results of tools/run_seeds.sh / run_mutants.sh logs (out/seedrun-*.log) into
notes/selftest_results.json (one row per (change, check))."""
import json, re, sys
from pathlib import Path

ROOT = Path(__file__).resolve().parent.parent
res_file = ROOT / "notes" / "selftest_results.json"
rows = {(r["change"], r["check"]): r for r in (json.loads(res_file.read_text()) if res_file.exists() else [])}
for log in sorted((ROOT / "out").glob("seedrun-*.log")):
    m = re.match(r"seedrun-(C\d\d)-(.+)\.log", log.name)
    if not m:
        continue
    check, change = m.group(1), m.group(2)
    txt = log.read_text(errors="replace")
    viol = re.findall(r"^VIOLATION .*\n\s+(.*)$", txt, re.M)
    tierm = re.search(r"tier=(\w+)", txt)
    tier = tierm.group(1) if tierm else "quick"
    if "MACHINERY-FAILURE" in txt or "Traceback" in txt and not viol:
        result = "machinery failure"
    elif viol:
        result = "DETECTED"
    elif re.search(r"violations=0", txt):
        result = "missed"
    else:
        result = "unknown"
    clause = ""
    if viol:
        mm = re.search(r"clause ([\w,]+)", viol[0])
        clause = mm.group(1) if mm else viol[0][:60]
    kind = "seeded (sub-agent)" if re.match(r"C\d\d-m\d", change) else \
        ("pre-fix (reverse of a fix: commit)" if "prefix" in change else "hand-written mutant")
    rows[(change, check)] = {"change": change, "kind": kind, "check": check, "tier": tier,
                             "result": result, "clause": clause}
res_file.write_text(json.dumps(list(rows.values()), indent=1))
print(len(rows), "rows")
for r in rows.values():
    print(f"  {r['change']:45s} {r['check']} {r['result']:10s} {r['clause']}")
