#!/usr/bin/env python3
"""Compare a junit xml of the repository's test-suite with /root/.vp/BASELINE.json stable_pass."""
import json, sys, xml.etree.ElementTree as ET
b = json.load(open('/root/.vp/BASELINE.json'))
stable = set(b['stable_pass'])
root = ET.parse(sys.argv[1]).getroot()
passed = set(); other = {}
for tc in root.iter('testcase'):
    name = f"{tc.get('classname')}::{tc.get('name')}"
    bad = [c.tag for c in tc if c.tag in ('failure', 'error', 'skipped')]
    if bad: other[name] = bad[0]
    else: passed.add(name)
missing = sorted(stable - passed)
print('stable', len(stable), 'passed now', len(passed), 'stable not passing', len(missing))
for m in missing[:40]: print('  ', m, other.get(m, 'absent'))
