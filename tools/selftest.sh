#!/bin/bash
# tools/selftest.sh [pattern]   - run every mutant / seeded change against the check(s) that should
# catch it (quick tier unless TIER=thorough) and regenerate notes/selftest_results.json and DESIGN.md 6.1.
# Each run uses a scratch worktree of /repo (tools/with_patch.sh); /repo itself is never modified.
cd "$(dirname "$0")/.."
pat="${1:-.}"
run() {  # run <check> <name> <patch>
  echo "$2" | grep -Eq "$pat" || return 0
  log="out/seedrun-$1-$2.log"
  tools/with_patch.sh "$3" ./check "$1" --tier "${TIER:-quick}" > "$log" 2>&1
  echo "$1 vs $2: exit=$? violations=$(grep -c '^VIOLATION' "$log")"
}
mkdir -p out
# seeded changes (written by sub-agents from the property text only)
for s in seeded/*/; do
  n=$(basename "$s"); p=${n%%-*}
  run "$p" "$n" "$s/patch.diff"
done
# cross-property catches
run C03 C02-m1 seeded/C02-m1/patch.diff
run C04 C12-m2 seeded/C12-m2/patch.diff
# pre-fix mutants (reverse of the fix: commits) and hand-written mutants
for m in tools/mutants/*.diff; do
  n=$(basename "$m" .diff); p=$(echo "$n" | sed -E 's/^c([0-9]{2})_.*/C\1/')
  run "$p" "$n" "$m"
done
run C07 c02_F2_prefix_start_drops_exception tools/mutants/c02_F2_prefix_start_drops_exception.diff
python3 tools/collect_seedruns.py > /dev/null
python3 tools/build_design.py
