#!/bin/bash
# tools/verify_seed.sh <Cxx> <k> [<dest-k>] : confirm a seeded change produced by a sub-agent
#   (<dest-k>: number under which it is stored, for later rounds; default <k>)
#   - demo passes on the current tree, fails with the patch
#   - relevant existing tests still pass with the patch
# on success the change is stored as /verif/seeded/<Cxx>-m<k>/
id="$1"; k="$2"; dk="${3:-$2}"; src="/tmp/seed/$id.out/m$k"
[ -f "$src/patch.diff" ] || { echo "$id m$k: no patch"; exit 2; }
wt="$(mktemp -d /tmp/anyio-seedchk-XXXXXX)"
git -C /repo worktree add --detach "$wt" HEAD >/dev/null 2>&1
cd "$wt"
export PYTHONPATH="$wt/src"
timeout 120 /venv/bin/python "$src/demo.py" >/tmp/seedchk-$id-$k.orig 2>&1; o=$?
if ! git apply "$src/patch.diff" 2>/tmp/seedchk-$id-$k.apply; then
  echo "$id m$k: PATCH DOES NOT APPLY"; git -C /repo worktree remove --force "$wt"; exit 1; fi
timeout 120 /venv/bin/python "$src/demo.py" >/tmp/seedchk-$id-$k.mut 2>&1; m=$?
tests="tests/test_taskgroups.py tests/test_synchronization.py tests/streams/test_memory.py tests/test_from_thread.py tests/test_to_thread.py tests/test_functools.py tests/test_itertools.py tests/streams/test_buffered.py tests/streams/test_text.py tests/streams/test_tls.py tests/test_eventloop.py tests/test_lowlevel.py tests/test_contextmanagers.py tests/test_pytest_plugin.py tests/test_debugging.py"
[ "$id" = "C18" ] && tests="$tests tests/test_sockets.py"
timeout 2400 /venv/bin/python -m pytest -q -p no:cacheprovider --timeout=300 -n 3 $tests >/tmp/seedchk-$id-$k.tests 2>&1
t=$(tail -1 /tmp/seedchk-$id-$k.tests)
# only tests that BASELINE.json lists as stable passes count (no network / ipv6 here, some tests are flaky)
nf=$(grep "^FAILED\|^ERROR" /tmp/seedchk-$id-$k.tests | python3 -c '
import json, sys, re
stable = set(eval(json.load(open("/root/.vp/BASELINE.json"))["stable_pass"])) if isinstance(json.load(open("/root/.vp/BASELINE.json"))["stable_pass"], str) else set(json.load(open("/root/.vp/BASELINE.json"))["stable_pass"])
n = 0
for line in sys.stdin:
    m = re.match(r"(FAILED|ERROR) (\S+)", line)
    if not m: continue
    parts = m.group(2).split("::")
    tid = parts[0][:-3].replace("/", ".") + ("." + ".".join(parts[1:-1]) if len(parts) > 2 else "") + "::" + parts[-1]
    if tid in stable:
        n += 1; print("stable test failed:", tid, file=sys.stderr)
print(n)' 2>/tmp/seedchk-$id-$k.newfail)
echo "$id m$k: demo_orig_exit=$o demo_mut_exit=$m tests: $t (failed lines: $nf)"
if [ "$o" = "0" ] && [ "$m" != "0" ] && [ "$nf" = "0" ]; then
  d="/verif/seeded/$id-m$dk"; mkdir -p "$d"; cp "$src/patch.diff" "$src/demo.py" "$src/meta.json" "$d/" 2>/dev/null
  echo "$id m$k: CONFIRMED -> $d"
fi
cd /; git -C /repo worktree remove --force "$wt"; rm -rf "$wt"
