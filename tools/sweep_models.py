#!/usr/bin/env python3
"""Model-only sweep: simulate every configuration of every family with several seeds and report
invariant violations (used to shake out observer false alarms before they show up as exit 2)."""
import importlib, sys, time
from pathlib import Path
sys.path.insert(0, str(Path(__file__).resolve().parent.parent))
from harness import core, tlc  # noqa: E402

mods = sys.argv[1].split(",") if len(sys.argv) > 1 else ["c01", "c02", "c03", "c04", "c05", "c06", "c07", "c09", "c10", "c11", "c12"]
seeds = [int(x) for x in (sys.argv[2].split(",") if len(sys.argv) > 2 else "1,2,3")]
num = int(sys.argv[3]) if len(sys.argv) > 3 else 3000
for m in mods:
    mod = importlib.import_module(f"harness.{m}")
    fams = [getattr(mod, n) for n in dir(mod) if n in ("FAMILY", "SEM", "LIM", "EVENT", "COND")]
    for fam in fams:
        for cfg in fam.configs:
            if cfg.liveness:
                continue
            d = core.OUT / "sweep"
            d.mkdir(parents=True, exist_ok=True)
            p = d / f"{m}-{cfg.name}.cfg"
            tlc.write_cfg(p, constants=cfg.constants, view=fam.view, invariants=fam.invariants)
            for s in seeds:
                t0 = time.time()
                try:
                    r = tlc.run_tlc(fam.mc_module, p, workers=2, timeout=1500, simulate=f"num={num}",
                                    depth=cfg.sim_depth, seed=s, tag="sweep", keep_output=True)
                except tlc.TLCError as exc:
                    print(f"{m} {cfg.name} seed={s}: TLC ERROR {str(exc)[:300]}", flush=True)
                    continue
                if r.violated:
                    out = r.output
                    i = out.find("pbad = {\"")
                    print(f"{m} {cfg.name} seed={s}: VIOLATED {r.violated} {out[i:i+120] if i >= 0 else ''}", flush=True)
                    (d / f"{m}-{cfg.name}-{s}.out").write_text(out[-60000:])
                else:
                    print(f"{m} {cfg.name} seed={s}: ok ({time.time()-t0:.0f}s)", flush=True)
