#!/usr/bin/env python3
"""Regenerates MANIFEST.json from the table below (kept in one place so it is always valid)."""
import json
from pathlib import Path

ROOT = Path(__file__).resolve().parent.parent
ALL = [f"C{i:02d}" for i in range(1, 21)]

CLAIMED = {
    "C09": dict(
        text="TLC exhaustively checks the implementation-shaped model of Lock on the asyncio kernel "
             "(all client programs up to the bound x all schedules x scope and native cancellation at "
             "every between-handle point) against the property-level observer P_Lock; every choice edge "
             "of the small state graphs and sampled behaviours of the large ones are replayed on the real "
             "anyio.Lock on a controlled loop and the recorded traces are validated by TLC against the "
             "same observer.",
        design_ref="DESIGN.md section 3 (C09)",
        note="asyncio (CPython 3.12) loop/task semantics are environment; exhaustive within the stated "
             "constants; replay on the controlled SelectorEventLoop subclass only",
        technique="TLA+ model checking (TLC) + spec-to-code replay + TLC trace validation",
    ),
}

NOT_YET = "check not built yet in this round (planned, see DESIGN.md section 3)"

def main():
    checks = []
    for pid, c in CLAIMED.items():
        checks.append({
            "property_id": pid,
            "quick_cmd": f"./check {pid} --tier quick",
            "thorough_cmd": f"./check {pid} --tier thorough",
            "evidence_file": f"/verif/evidence/{pid}.json",
            "replay_cmd_template": f"./check {pid} --replay {{path}}",
            "engine": "tlc+replay",
            "level_claimed": {"category": c.get("category", "model_checking"), "text": c["text"],
                              "design_ref": c["design_ref"]},
            "level_note": c["note"],
            "technique": c["technique"],
        })
    extra_na = json.loads((ROOT / "tools" / "not_applicable.json").read_text()) \
        if (ROOT / "tools" / "not_applicable.json").exists() else {}
    na = [{"property_id": p, "reason": extra_na.get(p, NOT_YET)} for p in ALL if p not in CLAIMED]
    m = {
        "version": 1,
        "setup_cmd": "./check setup",
        "hooks": {
            "guard": "ANYIO_VERIF",
            "enable": "no source hooks are needed: observation goes through anyio's public API and a "
                      "controlled asyncio loop that lives in /verif/harness; checks import anyio from "
                      "/repo/src (or $VERIF_REPO/src) at run time",
            "baseline_off_cmd": "cd /repo && /venv/bin/python -m pytest -ra -q -p no:cacheprovider "
                                "--timeout=900 --continue-on-collection-errors",
            "source_commits": [],
            "add_only": True,
        },
        "engines": [
            {"name": "tlc+replay", "path": "/verif/harness",
             "serves_properties": sorted(CLAIMED),
             "kind_free_text": "explicit TLA+ specifications (spec/*.tla) checked by TLC; TLC-generated "
                               "behaviours replayed into the real library on a controlled virtual-time "
                               "asyncio loop; recorded traces validated by TLC against the property-level "
                               "observer"},
        ],
        "checks": checks,
        "not_applicable": na,
        "notes": "See DESIGN.md. Known findings: known_findings.json.",
    }
    (ROOT / "MANIFEST.json").write_text(json.dumps(m, indent=1) + "\n")

main()
