#!/usr/bin/env python3
"""Regenerates MANIFEST.json from the table below (kept in one place so it is always valid)."""
import json
from pathlib import Path

ROOT = Path(__file__).resolve().parent.parent
ALL = [f"C{i:02d}" for i in range(1, 21)]

CLAIMED = {
    "C09": dict(
        text="TLC exhaustively checks the implementation-shaped model of Lock on the asyncio kernel "
             "(all client programs up to the bound x all schedules x scope and native cancellation at "
             "every between-handle point) against the property-level observer P_Lock; every choice edge "
             "of the small state graphs and sampled behaviours of the large ones are replayed on the real "
             "anyio.Lock on a controlled loop and the recorded traces are validated by TLC against the "
             "same observer.",
        design_ref="DESIGN.md section 3 (C09)",
        note="asyncio (CPython 3.12) loop/task semantics are environment; exhaustive within the stated "
             "constants; replay on the controlled SelectorEventLoop subclass only",
        technique="TLA+ model checking (TLC) + spec-to-code replay + TLC trace validation",
    ),
}

GEN = ("asyncio (CPython 3.12) loop/task semantics are environment; exhaustive within the stated "
       "constants; replay on the controlled SelectorEventLoop subclass only")
TECH = "TLA+ model checking (TLC) + spec-to-code replay + TLC trace validation"
CLAIMED.update({
    "C10": dict(
        text="TLC exhaustively checks the implementation-shaped models of Semaphore and CapacityLimiter "
             "(all client programs up to the bound, total_tokens assignments, foreign borrowers, scope and "
             "native cancellation at every between-handle point) against the observers P_Sem / P_Limiter; "
             "choice edges and sampled behaviours are replayed on the real primitives and the recorded "
             "traces are validated by TLC against the same observers.",
        design_ref="DESIGN.md section 3 (C10)", note=GEN, technique=TECH),
    "C11": dict(
        text="TLC exhaustively checks the models of Event and Condition (wait/notify(n)/notify_all, "
             "cancellation before / in the same cycle as / after the notification) against P_Event and the "
             "nondeterministic specification P_Cond (silent withdraw / pass-on steps, subset construction); "
             "behaviours replayed on the real code, traces validated by TLC.",
        design_ref="DESIGN.md section 3 (C11)", note=GEN, technique=TECH),
    "C12": dict(
        text="TLC exhaustively checks the model of memory object streams (buffer sizes 0/1/2/inf, blocking and "
             "*_nowait calls by tasks and by outside callbacks, cancellation in the hand-over cycle) against "
             "the delivery clauses of P_Chan; behaviours replayed on the real streams, traces validated by TLC.",
        design_ref="DESIGN.md section 3 (C12, C13)", note=GEN, technique=TECH),
    "C13": dict(
        text="Same model and observer as C12, closing clauses: clone/close histories on both ends with peers "
             "blocked, EndOfStream / BrokenResourceError / ClosedResourceError exactly when stated, open "
             "counts true, nobody left blocked at quiescence.",
        design_ref="DESIGN.md section 3 (C12, C13)", note=GEN, technique=TECH),
})

SC = ("TLC exhaustively checks the implementation-shaped model of CancelScope on the asyncio kernel (most "
      "general clients: nested scopes with shields, deadlines, pre-cancelled scopes, shielded or re-waiting "
      "clean-up, cancel() by the task itself / a sibling / an outside callback, native Task.cancel()) against the "
      "independent reference semantics P_Scope; choice edges and sampled behaviours are replayed on the real "
      "scopes on a virtual-time loop and the recorded traces are validated by TLC against P_Scope. ")
TGX = ("TLC exhaustively checks the implementation-shaped model of TaskGroup / TaskHandle / start() on the asyncio "
       "kernel (children spawning children, nested groups, errors from body and children, cancellation from inside, "
       "outside and natively) against the observer P_TG (which contains P_Scope); behaviours replayed on real task "
       "groups, traces validated by TLC. ")
CLAIMED.update({
    "C01": dict(text=TGX + "Clauses: JoinAll, NoStepAfterGroupExit, HandleFinal.", design_ref="DESIGN.md section 3 (C01)", note=GEN, technique=TECH),
    "C02": dict(text=TGX + "Clauses: NoneDropped, NoneInvented, NoDuplicates, NoCancelLeaves, NoErrorNoRaise, ErrorsRaiseGroup, CancelOnlyPassesThrough.", design_ref="DESIGN.md section 3 (C02)", note=GEN, technique=TECH),
    "C03": dict(text=SC + "Clauses: InterruptedWithinBoundedCycles, EveryCheckpointRaises, NothingBlockedInCancelledScope.", design_ref="DESIGN.md section 3 (C03)", note=GEN, technique=TECH),
    "C04": dict(text=SC + "Clauses: CancelOnlyIfEffective, AbsorbIff, CaughtIff, ErrorsPass, NativeCancelPasses.", design_ref="DESIGN.md section 3 (C04)", note=GEN, technique=TECH),
    "C05": dict(text=SC + "Clauses: NoResidue (Task.cancelling() back at its entry value), NoLiveTimerAfterEnd, LoopIdleAfterEnd.", design_ref="DESIGN.md section 3 (C05)", note=GEN, technique=TECH),
    "C06": dict(text=SC + "Clauses: NotEarly, NotMissed, NotAfterExit, TimeoutErrorIff, EffectiveDeadline (virtual integer clock).", design_ref="DESIGN.md section 3 (C06)", note=GEN, technique=TECH),
    "C07": dict(text=TGX + "Clauses: ReturnsStartedValue, ChildErrorToCaller, ChildDoneBeforeCancelledStartReturns, GroupNotCancelledByStartFailure, SecondStartedIsError.", design_ref="DESIGN.md section 3 (C07)", note=GEN, technique=TECH),
})

CLAIMED.update({
    "C19": dict(
        text="SeqFns.tla defines the 20 anyio.itertools functions and reduce as declarative TLA+ operators on "
             "finite sequences (with error classes); TLC enumerates the bounded domain (all sequences over a "
             "3-letter alphabet up to length 4-5, all small parameters incl. invalid ones) and emits the expected "
             "outcome per case; three-way agreement spec = stdlib = anyio with sync and async sources; seeded "
             "longer cases are judged by TLC through T_SeqFns. tee: AioTee.tla (shared links, lock with FIFO "
             "queue, re-check under the lock) with up to 5 consumers, observer P_Tee (EachSeesAll, "
             "SourceConsumedOnce, ...), every edge / every complete interleaving replayed on the real tee and "
             "validated by T_Tee.",
        design_ref="DESIGN.md section 3 (C19)",
        note="elements are integers / tuples; callbacks from a small named family; CPython's itertools is the "
             "reference (batched(strict) from its documentation); tee replay on asyncio only",
        technique="TLA+ operators evaluated by TLC over the bounded domain + differential replay; TLC model "
                  "checking of tee interleavings + replay + TLC trace validation"),
})

CLAIMED.update({
    "C15": dict(
        text="AioPortal.tla: implementation-shaped model of BlockingPortal (caller threads, marshalling into the loop "
             "thread, _call_func with its own scope tied to the concurrent future, start_task, stop, "
             "start_blocking_portal exit, race switches at the Future lock and at _check_running) checked "
             "exhaustively by TLC against the observer P_Portal (ExactlyOnce, Answered*, CancelHitsThatTask, "
             "RefusedAfterStop, JoinOnExit, NothingOrphaned); TLC-generated scenarios are replayed on a real "
             "portal (asyncio and uvloop) step by step at quiescent points and the traces validated by T_Portal.",
        design_ref="DESIGN.md section 3 (C15)",
        note="coarser binding: real threads are stepped at quiescent points, interleavings inside one step are "
             "covered by the model only; concurrent.futures and asyncio FIFO order are environment; two races "
             "found by TLC are recorded as known findings F13, F14",
        technique="TLA+ model checking (TLC) + quiescent-step replay on real threads + TLC trace validation"),
    "C16": dict(
        text="BufStream.tla is the buffered-receive stream machine and TextStream.tla the incremental encoder / "
             "decoder machine; TLC proves every machine transition satisfies the observers P_ByteWrap / P_TextWrap "
             "and emits the full transition graph over byte strings over {0,1} up to length 5-6, all chunkings, both "
             "kinds of wrapped stream, receive / receive_exactly / receive_until / feed_data, and all texts of <= 4-5 "
             "abstract characters with all split points for 7 encoding shapes; every transition becomes one call on "
             "the real wrappers; seeded longer random traces are judged by TLC (T_ByteWrap, T_TextWrap).",
        design_ref="DESIGN.md section 3 (C16)",
        note="exhaustive byte part over alphabet {0,1}; larger alphabets random; wrapped stream never blocks; "
             "errors= other than strict not generated",
        technique="TLA+ state machine enumerated by TLC, one implementation test per transition + TLC trace validation"),
})

CLAIMED.update({
    "C08": dict(
        text="CheckpointSpec.tla writes every operation of the property's table as its sequence of segments "
             "(checkpoint_if_cancelled, cancel_shielded_checkpoint, bare yield, effect ...) in every state where it can "
             "complete without waiting; TLC enumerates the matrix {operation} x {state} x {scope configuration: clean, "
             "cancelled, cancelled behind a shield, ...} with the two clauses as invariants of the table itself (and "
             "rejects deliberately wrong tables); every cell is executed on the real library on four loop "
             "configurations (controlled loop stock / eager task factory, plain asyncio, uvloop) with the yield "
             "observed exactly as the statement says, and TLC validates all recorded cells against P_Checkpoint "
             "(Checkpointed, PreCancelledRaises, PreCancelledNoEffect, OnlyDocumentedExemption). All 20 itertools "
             "functions over empty / singleton / longer synchronous inputs.",
        design_ref="DESIGN.md section 3 (C08)",
        note="the matrix is finite and covered exhaustively; pre-cancellation through cancel scopes only; no effect is "
             "judged on the public projection; states where the operation must really wait belong to C03",
        technique="TLA+ table of operations checked by TLC, every cell executed + TLC trace validation"),
    "C14": dict(
        text="AioThreads.tla: implementation-shaped model of run_sync_in_worker_thread / WorkerThread (caller tasks, "
             "limiter with hand-over, shielded / abandon scopes, LIFO idle workers, reports via call_soon_threadsafe, "
             "thread functions that return, raise, call back with from_thread.run / run_sync, or check_cancelled) "
             "checked exhaustively by TLC against P_ThreadPool (Faithful, ContextVisible, BoundedRunning, "
             "TokenAlwaysReturned, CancelDeferred, AbandonedReturnsPromptly, CheckCancelledReports, CallbacksRight); "
             "TLC scenarios (gate releases, cancellations at quiescent points) replayed with real worker threads on "
             "asyncio and uvloop, traces validated by T_ThreadPool.",
        design_ref="DESIGN.md section 3 (C14)",
        note="coarser binding: real threads are stepped at quiescent points; intra-step races are covered by the "
             "model only; MAX_IDLE_TIME pruning not modelled",
        technique="TLA+ model checking (TLC) + quiescent-step replay on real threads + TLC trace validation"),
    "C17": dict(
        text="TlsPump.tla models TLSStream._call_sslobject_method against an abstract SSL engine (handshake flights "
             "for TLS 1.2 / 1.3, BIOs, records as head/tail cipher units, close_notify) and a transport with arbitrary "
             "chunk boundaries and cut points; TLC checks P_Tls (Prefix, MaxBytes, CleanCloseIsEndOfStream, "
             "TruncationIsBroken, TruncationIsEndOfStreamWhenNotStandard, PendingOutputFlushed, NoReadAfterEOF ...) "
             "as ghost state; TLC-generated schedules (sends, receives, deliveries of any prefix, EOF anywhere) are "
             "applied to two real TLSStream objects over an in-memory transport (abstract units mapped to bytes by "
             "parsing the real record headers; single-byte chunking included) and the traces validated by T_Tls.",
        design_ref="DESIGN.md section 3 (C17)",
        note="OpenSSL is environment (the abstract engine is only compared with it); SSL contexts with "
             "OP_IGNORE_UNEXPECTED_EOF cleared (what TLSStream.wrap creates); asyncio backend only",
        technique="TLA+ model checking (TLC) + schedule replay over an in-memory transport + TLC trace validation"),
})

CLAIMED.update({
    "C18": dict(
        text="SockProto.tla models StreamProtocol + SocketStream.receive/send/send_eof/aclose (read queue, read / write "
             "events, pause / resume, EOF, guards) with the kernel and the peer as environment actions; SockRaw.tla the "
             "raw-socket loops of UNIXSocketStream; TLC checks the observer P_Sock (InOrderNoLossNoDup, ChunkSize, "
             "EndOfStream / ClosedResource / BusyResource rules, NoDeadlock, BackPressure ...) as ghost state plus "
             "machine invariants and liveness under a fair kernel; every transition of the SockProto graphs is replayed "
             "on the real classes with a scripted transport, and TLC-simulated behaviours drive real TCP-loopback, UNIX "
             "and from_socket pairs on asyncio and uvloop (payload bytes encode their offset); all traces are validated "
             "by T_Sock.",
        design_ref="DESIGN.md section 3 (C18)",
        note="the kernel and asyncio / uvloop internals are environment; real-socket runs are samples; two genuine "
             "defects are recorded as known findings F10 (no back-pressure before the first blocking receive) and "
             "F16 (uvloop: closed UNIX stream stays open)",
        technique="TLA+ model checking (TLC) + transition replay on the protocol class + real-socket traces validated by TLC"),
})

CLAIMED.update({
    "C20": dict(
        text="AioCache.tla models AsyncLRUCacheWrapper.__call__ handle-exactly on the asyncio kernel (ordered dict of "
             "entries / placeholders, one Lock per placeholder, counters, ttl on a discrete clock; the pinned defects "
             "included); all nondeterminism belongs to the environment (calls, gate releases, failures, scope and native "
             "cancellation, clock ticks); the observer P_Cache (RightValue, SingleFlight, NoCrossKeyBlocking, "
             "NoInternalError, AtMostMaxsize measured with weak references, LRUEviction, NoStaleAfterEvict/Ttl) is ghost "
             "state; every choice edge of the exhaustive configurations and simulated behaviours are replayed on the "
             "real lru_cache on the controlled loop, plus seeded random long histories; traces validated by T_Cache.",
        design_ref="DESIGN.md section 3 (C20), section 7 (F3a-c, F15)",
        note="four genuine defects of the pinned cache are known findings (classified from the log alone); inside "
             "histories tainted by them (concurrency at a possibly full bounded cache) new single-flight / retention / "
             "order bugs would be reported as the known finding",
        technique="TLA+ model checking (TLC) + spec-to-code replay + TLC trace validation"),
})

NOT_YET = "check not built yet in this round (planned, see DESIGN.md section 3)"

def main():
    checks = []
    for pid, c in CLAIMED.items():
        checks.append({
            "property_id": pid,
            "quick_cmd": f"./check {pid} --tier quick",
            "thorough_cmd": f"./check {pid} --tier thorough",
            "evidence_file": f"/verif/evidence/{pid}.json",
            "replay_cmd_template": f"./check {pid} --replay {{path}}",
            "engine": "tlc+replay",
            "level_claimed": {"category": c.get("category", "model_checking"), "text": c["text"],
                              "design_ref": c["design_ref"]},
            "level_note": c["note"],
            "technique": c["technique"],
        })
    extra_na = json.loads((ROOT / "tools" / "not_applicable.json").read_text()) \
        if (ROOT / "tools" / "not_applicable.json").exists() else {}
    na = [{"property_id": p, "reason": extra_na.get(p, NOT_YET)} for p in ALL if p not in CLAIMED]
    m = {
        "version": 1,
        "setup_cmd": "./check setup",
        "hooks": {
            "guard": "ANYIO_VERIF",
            "enable": "no source hooks are needed: observation goes through anyio's public API and a "
                      "controlled asyncio loop that lives in /verif/harness; checks import anyio from "
                      "/repo/src (or $VERIF_REPO/src) at run time",
            "baseline_off_cmd": "cd /repo && /venv/bin/python -m pytest -ra -q -p no:cacheprovider "
                                "--timeout=900 --continue-on-collection-errors",
            "source_commits": [],
            "add_only": True,
        },
        "engines": [
            {"name": "tlc+replay", "path": "/verif/harness",
             "serves_properties": sorted(CLAIMED),
             "kind_free_text": "explicit TLA+ specifications (spec/*.tla) checked by TLC; TLC-generated "
                               "behaviours replayed into the real library on a controlled virtual-time "
                               "asyncio loop; recorded traces validated by TLC against the property-level "
                               "observer"},
        ],
        "checks": checks,
        "not_applicable": na,
        "notes": "See DESIGN.md. Known findings: known_findings.json.",
    }
    (ROOT / "MANIFEST.json").write_text(json.dumps(m, indent=1) + "\n")

main()
