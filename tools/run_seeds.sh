#!/bin/bash
# tools/run_seeds.sh <check-id> <seed-dir-name>...   e.g. tools/run_seeds.sh C09 C09-m1 C09-m2
# Runs the quick check of <check-id> against each seeded change and reports detected / missed.
chk="$1"; shift
tier="${TIER:-quick}"
for s in "$@"; do
  log="/verif/out/seedrun-$chk-$s.log"
  /verif/tools/with_patch.sh "/verif/seeded/$s/patch.diff" /verif/check "$chk" --tier "$tier" > "$log" 2>&1
  rc=$?
  v=$(grep -c "^VIOLATION" "$log")
  first=$(grep -A1 "^VIOLATION" "$log" | sed -n 2p | cut -c1-160)
  echo "$chk vs $s: exit=$rc violations_lines=$v  $first"
done
